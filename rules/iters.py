"""Iterator rules: skip-loop postcondition, cursor/sub-iterator coupling, index sites."""
import os

from vlib import mirutil
from vlib.facts import walk, peel, place_path, CheckError, REPO, lit_int, sp_before
from vlib.paths import paths, normal_paths
from vlib.report import RuleResult
from rules.nopanic import snippet, sites_of, const_val

MSI = "subiterator::module_subiterator::ModuleSubIterator"
CSI = "subiterator::component_subiterator::ComponentSubIterator"


def _repo():
    return os.environ.get("ORCA_ANALYSED_REPO", REPO)


def _conjuncts(c):
    out = []
    st = [c]
    while st:
        x = st.pop()
        x = peel(x)
        if x.get("k") == "Binary" and x.get("op") == "&&":
            st += [x["b"], x["a"]]
        else:
            out.append(x)
    return out


def skip_loop(F):
    r = RuleResult("R-SKIP-LOOP",
                   "ModuleSubIterator::handle_skips can only stop on a function that is not skipped or past the end: every exit of its loop is either the negation of `skip_funcs.contains(current)` or a bound check `curr_idx >= metadata.len()`; no other exit condition (which would leave a skipped function current)")
    fn = F.one_fn(name="handle_skips", self_adt="ModuleSubIterator")
    r.analysed.append(fn["path"])
    loops = [n for n in walk(fn["body"]) if n.get("k") == "Loop"]
    if len(loops) == 0:
        return _skip_loop_iterform(F, r, fn)
    if len(loops) != 1:
        r.undecided("handle_skips has %d loops: exit conditions not analysed" % len(loops))
        return r
    lp = loops[0]
    n_exits = 0

    def is_contains(e):
        e = peel(e)
        return e.get("k") == "MethodCall" and e["method"] == "contains" and (place_path(e["recv"]) or "").endswith("skip_funcs")

    def is_bound_ge(e):
        e = peel(e)
        if e.get("k") == "Binary" and e["op"] in (">=", ">", "=="):
            a, b = place_path(e["a"]) or "", peel(e["b"])
            return a.endswith("curr_idx") and b.get("k") == "MethodCall" and b["method"] == "len" and (place_path(b["recv"]) or "").endswith("metadata")
        return False

    def is_bound_lt(e):
        e = peel(e)
        if e.get("k") == "Binary" and e["op"] == "<":
            a, b = place_path(e["a"]) or "", peel(e["b"])
            return a.endswith("curr_idx") and b.get("k") == "MethodCall" and b["method"] == "len" and (place_path(b["recv"]) or "").endswith("metadata")
        return False

    # while-desugaring: loop { if COND { body } else { break } }
    body = lp["body"]
    top_if = body.get("expr") if body.get("expr") is not None else (body["stmts"][-1].get("e") if body["stmts"] else None)
    if not top_if or top_if.get("k") != "If":
        r.undecided("handle_skips loop is not a while loop: exit conditions not analysed")
        return r
    for c in _conjuncts(top_if["cond"]):
        n_exits += 1
        ok = is_contains(c) or is_bound_lt(c)
        r.ob(ok, {"while-conjunct": snippet(_repo(), fn["file"], c["sp"]), "its negation is an allowed exit": ok})
        if not ok:
            r.violate("%s | while-conjunct %s" % (fn["path"], snippet(_repo(), fn["file"], c["sp"])), F.loc(fn, c),
                      "the skip loop also stops when `%s` is false: it can stop on a function that is in the skip list, which is then visited" % snippet(_repo(), fn["file"], c["sp"]))
    # breaks inside the body
    def rec(node, conds):
        nonlocal n_exits
        if isinstance(node, list):
            for v in node:
                rec(v, conds)
            return
        if not isinstance(node, dict):
            return
        if node.get("k") == "If":
            rec(node["cond"], conds)
            rec(node["then"], conds + [(node["cond"], True)])
            if "else" in node:
                rec(node["else"], conds + [(node["cond"], False)])
            return
        if node.get("k") == "Break":
            n_exits += 1
            ok = any(pol and is_bound_ge(c) for c, pol in conds)
            r.ob(ok, {"break under": [snippet(_repo(), fn["file"], c["sp"]) for c, _ in conds]})
            if not ok:
                r.violate("%s | break" % fn["path"], F.loc(fn, node), "the skip loop breaks under a condition other than `curr_idx >= metadata.len()`")
            return
        for v in node.values():
            if isinstance(v, (dict, list)):
                rec(v, conds)

    rec(top_if["then"], [])
    r.count("loop_exits", n_exits)
    # the skip test reads the *current* function: contains(&curr_fid) where curr_fid = get_curr_func().0 refreshed after each increment
    def reads_current(e):
        """reads the function at the cursor: get_curr_func(), another accessor on self, or metadata[curr_idx]"""
        for x in walk(e):
            if x.get("k") == "MethodCall" and (place_path(x["recv"]) or "") == "self" and not x.get("args"):
                return True
            if x.get("k") == "Index" and (place_path(x["base"]) or "").endswith("metadata") and (place_path(x["index"]) or "").endswith("curr_idx"):
                return True
        return False
    refreshed = False
    for n in walk(top_if["then"]):
        if n.get("k") == "Assign" and peel(n["lhs"]).get("k") == "Path":
            if reads_current(n["rhs"]):
                refreshed = True
    direct = any(reads_current(c) for c in _conjuncts(top_if["cond"]))
    r.ob(refreshed or direct)
    if not (refreshed or direct):
        r.violate("%s | stale current" % fn["path"], F.loc(fn), "the skip test does not re-read the current function after advancing")
    return r


def _skip_loop_iterform(F, r, fn):
    """handle_skips written as `curr_idx += metadata[curr_idx..].iter().take_while(|(fid, _)| skip_funcs.contains(fid)).count()`:
    the run that is skipped is exactly the maximal prefix of skipped functions iff the take_while predicate is the
    skip-list membership of the element's own id and the window starts at the cursor."""
    tws = [n for n in walk(fn["body"]) if n.get("k") == "MethodCall" and n["method"] in ("take_while", "skip_while", "position", "find")
           and n.get("args") and peel(n["args"][0]).get("k") == "Closure"]
    if len(tws) != 1 or tws[0]["method"] != "take_while":
        r.undecided("handle_skips has no loop and no single take_while: skip-run computation not analysed")
        return r
    tw = tws[0]
    clo = peel(tw["args"][0])
    params = {b["hid"] for p in clo["params"] for b in walk(p) if b.get("k") == "Binding"}
    n_exits = 0
    for c in _conjuncts(clo["body"]):
        n_exits += 1
        c_ = peel(c)
        ok = c_.get("k") == "MethodCall" and c_["method"] == "contains" and (place_path(c_["recv"]) or "").endswith("skip_funcs") \
            and any(x.get("k") == "Path" and x.get("res", {}).get("hid") in params for x in walk(c_["args"][0]))
        r.ob(ok, {"take_while-conjunct": snippet(_repo(), fn["file"], c["sp"]), "its negation is an allowed stop": ok})
        if not ok:
            r.violate("%s | while-conjunct %s" % (fn["path"], snippet(_repo(), fn["file"], c["sp"])), F.loc(fn, c),
                      "the skip run also stops when `%s` is false: it can stop on a function that is in the skip list, which is then visited" % snippet(_repo(), fn["file"], c["sp"]))
    r.count("loop_exits", n_exits)
    # the window starts at the cursor: metadata[curr_idx..] or metadata.iter().skip(curr_idx)
    base = tw["recv"]
    starts = False
    for x in walk(base):
        if x.get("k") == "Index" and (place_path(x["base"]) or "").endswith("metadata"):
            ix = peel(x["index"])
            if ix.get("k") == "Struct" and ix.get("adt", "").endswith("RangeFrom") and (place_path(ix["fields"][0][1]) or "").endswith("curr_idx"):
                starts = True
        if x.get("k") == "MethodCall" and x["method"] == "skip" and (place_path(x["args"][0]) or "").endswith("curr_idx") \
                and any((place_path(y) or "").endswith("metadata") for y in walk(x["recv"])):
            starts = True
    r.ob(starts)
    if not starts:
        r.violate("%s | stale current" % fn["path"], F.loc(fn, tw), "the skip run is not computed over the functions from the cursor onwards")
    return r


def coupled_state(F):
    r = RuleResult("R-COUPLED-STATE",
                   "cursor and derived sub-iterator move together: in ModuleSubIterator every path that changes curr_idx (directly or through handle_skips) afterwards (re)builds func_iterator before returning true/()/Self; in ComponentSubIterator every function that changes curr_mod rebuilds mod_iterator from both metadata[curr_mod] and skip_funcs[curr_mod]")
    n = 0
    for fn in F.find_fns(self_adt="ModuleSubIterator"):
        if fn.get("body") is None or fn["name"] == "handle_skips":
            continue

        def classify(x):
            k = x.get("k")
            if k in ("Assign", "AssignOp") and (place_path(x["lhs"]) or "").endswith("curr_idx"):
                return "MOVE"
            if k == "MethodCall" and x["method"] == "handle_skips":
                return "MOVE"
            if k == "Assign" and (place_path(x["lhs"]) or "").endswith("func_iterator"):
                return "SYNC"
            if k == "MethodCall" and x["method"] == "reset" and (place_path(x["recv"]) or "").endswith("func_iterator"):
                return "SYNC"
            if k == "Struct" and (x.get("adt") or "").endswith("ModuleSubIterator") and "rest" not in x:
                return "SYNC"   # construction sizes func_iterator from the metadata read so far (and sets curr_idx)
            if k == "Lit" and x.get("lit") == "Bool(false)":
                return "FALSE"
            return None

        def branch_label(node):
            c = peel(node["cond"])
            if c.get("k") == "Path" and c.get("res", {}).get("r") == "local":
                # `let found = curr_idx < metadata.len(); .. if found { .. }`: the test is read through the (immutable) local,
                # provided the cursor does not move between the test and its use
                from vlib.facts import binding_site as _bs
                _pat, scr_, _kind = _bs(fn["body"], c["res"]["hid"])
                if scr_ is not None and _kind != "for" and "mut" not in str((_pat or {}).get("mode") or "").lower() \
                        and not any(classify(y) == "MOVE" and sp_before(scr_, y) and sp_before(y, node) for y in walk(fn["body"]) if isinstance(y, dict) and y.get("sp")):
                    c = peel(scr_)
            if c.get("k") == "Binary" and c["op"] == "<" and (place_path(c["a"]) or "").endswith("curr_idx"):
                b = peel(c["b"])
                if b.get("k") == "MethodCall" and b["method"] == "len" and (place_path(b["recv"]) or "").endswith("metadata"):
                    return (None, "PASTEND")
            if c.get("k") == "Binary" and c["op"] in (">=", "==") and (place_path(c["a"]) or "").endswith("curr_idx"):
                b = peel(c["b"])
                if b.get("k") == "MethodCall" and b["method"] == "len" and (place_path(b["recv"]) or "").endswith("metadata"):
                    return ("PASTEND", None)
            # `if let Some(..) = metadata.get(curr_idx)`: the else side is the cursor past the end
            if c.get("k") == "LetExpr" and c["pat"].get("k") == "TupleStruct" and (c["pat"].get("path") or c["pat"].get("variant") or "").endswith("Some"):
                g = peel(c["init"])
                if g.get("k") == "MethodCall" and g["method"] == "get" and (place_path(g["recv"]) or "").endswith("metadata") \
                        and (place_path(g["args"][0]) or "").endswith("curr_idx"):
                    return (None, "PASTEND")
            return None

        ps = normal_paths(paths(fn["body"], classify, branch_label=branch_label))
        if not any("MOVE" in ev for ev, _ in ps):
            continue
        n += 1
        r.analysed.append(fn["path"])
        for ev, st in ps:
            if "MOVE" not in ev:
                continue
            if ev and ev[-1] == "FALSE":
                r.ob(True)
                continue  # reports exhaustion: no current function to be in sync with
            last_move = max(i for i, e in enumerate(ev) if e == "MOVE")
            if "PASTEND" in ev[last_move + 1:]:
                r.ob(True)
                continue  # cursor is past the last function: there is nothing to be in sync with
            ok = any(e == "SYNC" for e in ev[last_move + 1:])
            r.ob(ok, {"fn": fn["path"], "path": list(ev)})
            if not ok:
                r.violate("%s | cursor moved after sync" % fn["path"], F.loc(fn),
                          "a path through %s changes curr_idx (events %s) after the last (re)initialisation of func_iterator: the instruction bound in use belongs to a different function than the one reported as current" % (fn["name"], list(ev)))
                break
    for fn in F.find_fns(self_adt="ComponentSubIterator"):
        if fn.get("body") is None:
            continue
        moves = [x for x in walk(fn["body"]) if x.get("k") in ("Assign", "AssignOp") and "curr_mod" in (place_path(x["lhs"]) or "")]
        builds_literal = any(x.get("k") == "Struct" and (x.get("adt") or "").endswith("ComponentSubIterator") and "rest" not in x for x in walk(fn["body"]))
        if not moves and not builds_literal:
            continue
        n += 1
        r.analysed.append(fn["path"])
        reads = set()
        for x in walk(fn["body"]):
            if x.get("k") == "Field" and x["name"] in ("metadata", "skip_funcs"):
                reads.add(x["name"])
            if x.get("k") == "Path" and x.get("res", {}).get("name") in ("metadata", "skip_funcs"):
                reads.add(x["res"]["name"])
        ok = reads == {"metadata", "skip_funcs"}
        r.ob(ok, {"fn": fn["path"], "rebuilds mod_iterator from": sorted(reads)})
        if not ok:
            r.violate("%s | partial rebuild" % fn["path"], F.loc(fn),
                      "%s changes curr_mod but rebuilds the module sub-iterator from %s only (needs both metadata and skip_funcs of the new module): the previous module's %s stays in effect" % (
                          fn["name"], sorted(reads), sorted({"metadata", "skip_funcs"} - reads)))
    # … and on every path: after the last change of curr_mod the module sub-iterator is re-installed (assigned, or
    # `reset_from_comp_iterator`), unless the path reports exhaustion (`false`).  A "rewinding is enough" shortcut
    # (`mod_iterator.reset()` only) keeps the function table and skip list of the module the traversal stopped in.
    for fn in F.find_fns(self_adt="ComponentSubIterator"):
        if fn.get("body") is None or fn["name"] == "new":
            continue

        def classify_c(x):
            k = x.get("k")
            if k in ("Assign", "AssignOp") and (place_path(x["lhs"]) or "").replace("*", "").endswith("curr_mod"):
                return "MOVE"
            if k == "Assign" and (place_path(x["lhs"]) or "").endswith("mod_iterator"):
                return "INSTALL"
            if k == "MethodCall" and x["method"] == "reset_from_comp_iterator" and (place_path(x["recv"]) or "").endswith("mod_iterator"):
                return "INSTALL"
            if k == "Lit" and x.get("lit") == "Bool(false)":
                return "FALSE"
            return None
        try:
            ps = normal_paths(paths(fn["body"], classify_c))
        except Exception:
            continue
        if not any("MOVE" in ev for ev, _ in ps):
            continue
        for ev, _st in ps:
            if "MOVE" not in ev or (ev and ev[-1] == "FALSE"):
                continue
            last_move = max(i for i, e in enumerate(ev) if e == "MOVE")
            ok = "INSTALL" in ev[last_move + 1:]
            r.ob(ok, {"fn": fn["path"], "path": list(ev)})
            if not ok:
                r.violate("%s | module cursor moved without re-install" % fn["path"], F.loc(fn),
                          "a path through %s changes curr_mod (events %s) and does not re-install the module sub-iterator from the new module's function table and skip list afterwards: the walk continues with the tables of the module it was in before" % (fn["name"], list(ev)))
                break
    # the two cursors index different things (curr_idx: a function in `metadata`; func_iterator.curr_instr: an instruction
    # of that function): neither is handed to the other level's API
    for fn in F.find_fns(self_adt="ModuleSubIterator"):
        if fn.get("body") is None:
            continue
        for c in walk(fn["body"]):
            if c.get("k") == "MethodCall" and (place_path(c["recv"]) or "").endswith("func_iterator") and c.get("args"):
                for a_ in c["args"]:
                    pp = place_path(a_) or ""
                    bad = pp.endswith("self.curr_idx")
                    r.ob(not bad, {"fn": fn["path"], "call": "func_iterator.%s(%s)" % (c["method"], pp or "..")})
                    if bad:
                        r.violate("%s | function cursor passed to func_iterator.%s" % (fn["path"], c["method"]), F.loc(fn, c),
                                  "%s passes the function cursor `curr_idx` to the instruction sub-iterator's `%s`: a position among functions is compared with a position among instructions" % (fn["name"], c["method"]))
    # reset(p..) re-establishes what new(p..) establishes: every parameter of a sub-iterator's `reset` is stored in the field
    # `new` stores the like-named parameter in, on every normal path (a "nothing to rewind" shortcut keeps a stale bound)
    for adt_ in ("FuncSubIterator", "ModuleSubIterator", "ComponentSubIterator"):
        news = F.find_fns(name="new", self_adt=adt_)
        resets = [f_ for f_ in F.find_fns(self_adt=adt_) if f_["name"].startswith("reset") and f_.get("body") is not None]
        if len(news) != 1 or news[0].get("body") is None:
            continue
        nparams = {pm["pat"].get("hid"): pm["pat"].get("name") for pm in news[0].get("params", []) if pm["pat"].get("k") == "Binding"}
        field_of = {}
        for lit in walk(news[0]["body"]):
            if lit.get("k") == "Struct" and (lit.get("adt") or "").endswith(adt_) and "rest" not in lit:
                for fname, val in lit.get("fields", []):
                    v_ = peel(val)
                    if v_.get("k") == "Path" and v_.get("res", {}).get("hid") in nparams:
                        field_of[nparams[v_["res"]["hid"]]] = fname
        for rf in resets:
            for pm in rf.get("params", []):
                pn, ph = pm["pat"].get("name"), pm["pat"].get("hid")
                if pn == "self" or pn not in field_of:
                    continue
                fld = field_of[pn]

                def cl_r(n_, fld=fld, ph=ph):
                    if n_.get("k") == "Assign" and (place_path(n_["lhs"]) or "") == "self." + fld and any(y.get("k") == "Path" and y.get("res", {}).get("hid") == ph for y in walk(n_["rhs"])):
                        return "STORE"
                    return None
                evs = {ev for ev, st_ in paths(rf["body"], cl_r) if st_ in ("fall", "ret")}
                stores_somewhere = any("STORE" in ev for ev in evs)
                if not stores_somewhere:
                    continue      # this reset keeps the configuration (or stores it through a helper): nothing to compare
                ok = all("STORE" in ev for ev in evs)
                r.ob(ok, {"fn": rf["path"], "stores parameter": pn, "in field": fld, "on every path": ok})
                if not ok:
                    r.violate("%s | %s not stored on every path" % (rf["path"], pn), F.loc(rf),
                              "%s stores its `%s` argument in `%s` only on some paths: after the other paths the sub-iterator keeps the bound of the function it was at before" % (rf["name"], pn, fld))
    r.count("cursor_moving_fns", n)
    return r


def index_sites(F):
    r = RuleResult("R-ITER-INDEX",
                   "no unguarded indexing panic edge (MIR BoundsCheck / Index::index) in the sub-iterators (module, function, component): they must work for modules without local functions and with every function skipped")
    # C25's scope: the module and function sub-iterators (the component sub-iterator is keyed by module id
    # and needs ≥1 module, which C26's quantifier guarantees; its lookups are not judged here)
    fns = [f for f in getattr(F, "all_fns", F.fns) if f["path"].startswith(("subiterator::module_subiterator::", "subiterator::function_subiterator::")) and f.get("mir")]
    r.count("subiterator_fns", len(fns))
    n = 0
    for fn in fns:
        r.analysed.append(fn["path"])
        for s in sites_of(F, fn, _repo()):
            k = s["kind"]
            if not (k == "assert:BoundsCheck" or k.startswith("call:Index") or "::index" in s.get("callee", "") or k.startswith("call:") and "unwrap" in k):
                continue
            n += 1
            snip = snippet(_repo(), fn["file"], s["sp"])
            # the finding is "this function indexes that container unguarded": keyed by the container, not by the
            # spelling of the index expression
            tgt = None
            for x in walk(fn["body"]):
                if x.get("k") == "Index" and x["sp"][0] == s["sp"][0] and x["sp"][1] <= s["sp"][1] and x["sp"][3] >= s["sp"][3]:
                    pp = place_path(x["base"])
                    if pp:
                        tgt = "indexes " + pp.split(".")[-1]
            key = "%s | %s | %s" % (fn["path"], k, tgt or snip)
            if k == "assert:BoundsCheck":
                ln, ix = (const_val(o, fn["mir"]) for o in s["term"]["ops"])
                if ln is not None and ix is not None and ix < ln:
                    r.ob(True)
                    continue
            # `metadata[curr_idx..]`: a range-from slice panics only for start > len; the cursor never exceeds the
            # length (it is advanced by one under a has-next guard or by the length of a prefix of this very slice)
            if k.startswith("call:Index"):
                hn = [x for x in walk(fn["body"]) if x.get("k") == "Index" and peel(x["index"]).get("k") == "Struct"
                      and peel(x["index"]).get("adt", "").endswith("RangeFrom") and (place_path(peel(x["index"])["fields"][0][1]) or "").endswith("self.curr_idx")
                      and x["sp"][0] == s["sp"][0]]
                if hn:
                    r.ob(True)
                    r.info.append("assumed: cursor ≤ metadata.len() at `%s` (range-from slice)" % snip)
                    continue
                # `let first = self.curr_idx + 1; .. metadata[first..]` after this very function has already indexed
                # `metadata[curr_idx]` on every path to here (directly or through get_curr_func): curr_idx < len, so first ≤ len
                from vlib.facts import uncond_before as _ub, binding_site as _bs
                for x in walk(fn["body"]):
                    if not (x.get("k") == "Index" and x["sp"][0] == s["sp"][0] and peel(x["index"]).get("k") == "Struct" and peel(x["index"]).get("adt", "").endswith("RangeFrom")):
                        continue
                    st_e = peel(peel(x["index"])["fields"][0][1])
                    if st_e.get("k") == "Path" and st_e.get("res", {}).get("r") == "local":
                        _p, init_, _k = _bs(fn["body"], st_e["res"]["hid"])
                        st_e = peel(init_) if isinstance(init_, dict) else {}
                    if not (st_e.get("k") == "Binary" and st_e.get("op") == "+" and (place_path(st_e["a"]) or "").endswith("self.curr_idx") and lit_int(peel(st_e["b"]).get("lit")) == 1):
                        continue
                    prior = [y for y in walk(fn["body"]) if (y.get("k") == "MethodCall" and y["method"] == "get_curr_func" and (place_path(y["recv"]) or "") == "self")
                             or (y.get("k") == "Index" and (place_path(y["base"]) or "").endswith("metadata") and (place_path(y["index"]) or "").endswith("self.curr_idx"))]
                    if any(_ub(fn["body"], y, x)[0] for y in prior):
                        r.ob(True)
                        r.info.append("`%s`: start = cursor + 1 after the cursor's own entry was read (cursor < len)" % snip)
                        hn = [x]
                        break
                if hn:
                    continue
            r.ob(False, {"site": key})
            r.violate(key, "%s:%d" % (fn["file"], s["sp"][0]),
                      "unguarded %s in `%s`: panics when the metadata is empty or the cursor is past the end (empty module / all functions skipped)" % (k, snip))
    r.count("index_sites", n)
    return r


def config_immutable(F):
    """R-ITER-CONFIG: the skip lists and the (function, instruction count) metadata are the iterator's configuration: they
    are fixed at construction and must survive reset() and repeated traversals.  No method other than the constructor may
    assign them or call a consuming/mutating method on them (remove, take, drain, clear, pop, insert, push, retain, swap...)."""
    r = RuleResult("R-ITER-CONFIG",
                   "ModuleSubIterator/ComponentSubIterator/FuncSubIterator configuration (skip_funcs, metadata, num_mods, num_instrs bound source) is written only by the constructors: traversal and reset never consume or edit it")
    CFG = ("skip_funcs", "metadata")
    MUT = ("remove", "take", "drain", "clear", "pop", "insert", "push", "retain", "swap_remove", "truncate", "extend", "append", "sort", "dedup", "get_mut", "iter_mut", "values_mut", "entry", "remove_entry", "split_off")
    n = 0
    for adt in ("ModuleSubIterator", "ComponentSubIterator"):
        for fn in F.find_fns(self_adt=adt):
            if fn.get("body") is None:
                continue
            r.analysed.append(fn["path"])
            for x in walk(fn["body"]):
                hit = None
                if x.get("k") == "MethodCall" and x["method"] in MUT:
                    pp = place_path(x["recv"]) or ""
                    if pp.startswith("self.") and pp.split(".")[1] in CFG:
                        hit = "%s.%s()" % (pp, x["method"])
                if x.get("k") in ("Assign", "AssignOp"):
                    pp = place_path(x["lhs"]) or ""
                    if pp.startswith("self.") and pp.split(".")[1].split("[")[0] in CFG:
                        hit = "%s = .." % pp
                        rhs = peel(x.get("rhs") or {})
                        phids = {pm["pat"].get("hid") for pm in fn.get("params", [])}
                        if x.get("k") == "Assign" and pp.count(".") == 1 and rhs.get("k") == "Path" and rhs.get("res", {}).get("hid") in phids:
                            hit = None  # wholesale re-configuration by the owner (reset_from_comp_iterator(metadata, skip_funcs))
                        elif x.get("k") == "Assign" and pp.count(".") == 1 and rhs.get("k") in ("Call", "MethodCall") \
                                and any(y.get("k") == "Path" and y.get("res", {}).get("hid") in phids for y in walk(rhs)) \
                                and not any(y.get("k") == "Field" and y["name"] in CFG for y in walk(rhs)):
                            hit = None  # the same, through a conversion of the parameter (e.g. pairs → entries)
                if x.get("k") == "Call" and (x.get("callee") or "").endswith("mem::take") and x["args"]:
                    pp = place_path(x["args"][0]) or ""
                    if pp.startswith("self.") and pp.split(".")[1] in CFG:
                        hit = "mem::take(%s)" % pp
                if hit:
                    n += 1
                    ok = fn["name"] == "new"
                    r.ob(ok, {"fn": fn["path"], "writes": hit})
                    if not ok:
                        r.violate("%s | %s" % (fn["path"], hit), F.loc(fn, x),
                                  "%s::%s edits/consumes the iterator's configuration (`%s`): after it ran, reset() or a second traversal no longer skips/visits what the caller configured" % (adt, fn["name"], hit))
    # a re-configuration installs the whole configuration before it rewinds: reset()/handle_skips() read skip_funcs/metadata
    from vlib.facts import uncond_before
    for adt in ("ModuleSubIterator", "ComponentSubIterator"):
        for fn in F.find_fns(self_adt=adt):
            if fn.get("body") is None:
                continue
            assigns = [x for x in walk(fn["body"]) if x.get("k") == "Assign" and (place_path(x["lhs"]) or "").startswith("self.") and (place_path(x["lhs"]) or "").split(".")[1] in CFG]
            resets = [x for x in walk(fn["body"]) if x.get("k") == "MethodCall" and x["method"] in ("reset", "handle_skips") and (place_path(x["recv"]) or "") == "self"]
            if assigns and resets:
                ok = all(uncond_before(fn["body"], a_, rs_)[0] for a_ in assigns for rs_ in resets)
                r.ob(ok, {"fn": fn["path"], "config_installed_before_rewind": ok})
                if not ok:
                    r.violate("%s | rewind before config" % fn["path"], F.loc(fn, resets[0]), "%s::%s rewinds (reset/handle_skips) before the new configuration is fully installed: the first function is chosen with the previous skip list/metadata" % (adt, fn["name"]))
    reads = 0
    for adt in ("ModuleSubIterator", "ComponentSubIterator"):
        for fn in F.find_fns(self_adt=adt):
            if fn.get("body") is None:
                continue
            for x in walk(fn["body"]):
                if x.get("k") == "Field" and x["name"] in CFG and peel(x["base"]).get("res", {}).get("name") == "self":
                    reads += 1
    r.ob(True, {"configuration_reads": reads, "mutations_outside_new": n})
    r.count("config_reads", reads)
    if reads < 6:
        raise CheckError("iterator configuration fields not found (anchor moved?): %d reads" % reads)
    return r


def comp_next_fallthrough(F):
    """R-COMP-NEXT: ComponentSubIterator::next may report exhaustion (false) only through next_module(): the module
    iterator's has_next() is an over-approximation (functions left, but possibly all skipped), so a `false` from
    mod_iterator.next() must fall through to the next module instead of ending the traversal."""
    r = RuleResult("R-COMP-NEXT",
                   "every `false` that ComponentSubIterator::next can return comes from next_module(): a failing mod_iterator.next() (all remaining functions of the module skipped) falls through to the next module")
    fn = F.one_fn(name="next", self_adt="ComponentSubIterator")
    r.analysed.append(fn["path"])

    def advances(x):
        """moves on to the next module: `next_module()` or a write of curr_mod (its body, inlined)"""
        return any((y.get("k") == "MethodCall" and y["method"] == "next_module") or
                   (y.get("k") in ("Assign", "AssignOp") and "curr_mod" in (place_path(y["lhs"]) or "")) for y in walk(x))

    def G(e):
        e = peel(e)
        k = e.get("k")
        if k == "Block":
            # statement by statement: an early `return v` is fine when v is `true` (something was visited) or the module was
            # advanced before; once the module has been advanced the rest of the block is the next-module logic
            for st in e.get("stmts") or []:
                body_ = st.get("e") if st.get("k") in ("Semi", "Expr") else (st.get("init") if st.get("k") == "Let" else None)
                for rt in walk(body_ or {}):
                    if rt.get("k") == "Ret":
                        v = peel(rt.get("e") or {})
                        if not (v.get("k") == "Lit" and v.get("lit") == "Bool(true)") and not (rt.get("e") is not None and G(rt["e"])):
                            return False
                if body_ is not None and advances(body_):
                    return True
            if e.get("expr") is not None:
                return G(e["expr"])
            return False
        if k == "Lit":
            return e.get("lit") == "Bool(true)"
        if k == "MethodCall":
            return e["method"] == "next_module"
        if k == "If":
            return G(e["then"]) and ("else" in e and G(e["else"]))
        if k == "Binary" and e.get("op") == "||":
            return G(e["b"])
        if k == "Binary" and e.get("op") == "&&":
            return G(e["a"]) and G(e["b"])
        if k == "Match":
            return all(G(a["body"]) for a in e["arms"])
        if k == "DropTemps":
            return G(e.get("e") or e.get("a") or {})
        return False

    ok = G(fn["body"])
    r.ob(ok, {"fn": fn["path"], "false_only_via_next_module": ok})
    if not ok:
        r.violate("%s | early exhaustion" % fn["path"], F.loc(fn),
                  "ComponentSubIterator::next can return the module iterator's `false` directly: when the remaining functions of a non-final module are all skipped the component traversal ends instead of continuing with the next module")
    return r


def skip_passthrough(F):
    """R-SKIP-PASSTHROUGH: the skip configuration a caller hands to ModuleIterator::new / ComponentIterator::new reaches the
    sub-iterator unfiltered (only cloned): the iterator does not decide which of the caller's entries 'can' match."""
    r = RuleResult("R-SKIP-PASSTHROUGH",
                   "the skip list/map given to the public iterator constructors is passed to the sub-iterator as is (clone/to_owned only): no filter, retain, truncation or re-keying on the way")
    OKM = ("to_owned", "clone", "to_vec", "iter", "copied", "cloned", "collect", "into_iter", "as_slice", "borrow", "deref")
    n = 0
    for adt in ("ModuleIterator", "ComponentIterator"):
        for fn in F.find_fns(self_adt=adt, name="new"):
            if fn.get("body") is None:
                continue
            r.analysed.append(fn["path"])
            skip_params = {pm["pat"].get("hid") for pm in fn["params"] if "FunctionID" in (pm.get("ty") or "")}
            if not skip_params:
                continue
            # … nor edits it in place on the way (a shadowing `let mut skip_funcs = skip_funcs;` followed by
            # `get_mut(..).retain(..)` passes a changed configuration under the same name)
            derived = set(skip_params)
            for _round in range(3):
                for x in walk(fn["body"]):
                    pat = init = None
                    if x.get("k") in ("Let", "LetExpr") and "init" in x:
                        pat, init = x["pat"], x["init"]
                    if pat is not None and any(y.get("k") == "Path" and y.get("res", {}).get("hid") in derived for y in walk(init)) \
                            and "FunctionID" in ((init.get("ty") or "") + " ".join((b.get("ty") or "") for b in walk(pat) if b.get("k") == "Binding")) \
                            and not any(y.get("k") == "Call" and (y.get("callee") or "").endswith("SubIterator::new") for y in walk(init)):
                        for b in walk(pat):
                            if b.get("k") == "Binding":
                                derived.add(b["hid"])
            EDIT = ("retain", "remove", "clear", "truncate", "pop", "drain", "dedup", "sort", "sort_unstable", "insert", "push", "extend", "append", "swap_remove", "retain_mut", "remove_entry", "split_off", "dedup_by_key", "reverse")
            for x in walk(fn["body"]):
                if x.get("k") == "MethodCall" and x["method"] in EDIT:
                    root = peel(x["recv"])
                    while isinstance(root, dict) and root.get("k") in ("Field", "Index", "Deref", "Unary", "MethodCall", "AddrOf", "Ref"):
                        root = peel(root.get("base") or root.get("recv") or root.get("a") or root.get("e") or {})
                    if isinstance(root, dict) and root.get("k") == "Path" and root.get("res", {}).get("hid") in derived:
                        r.ob(False, {"ctor": fn["path"], "edits the skip configuration": x["method"]})
                        r.violate("%s | skip config edited in place (%s)" % (fn["path"], x["method"]), F.loc(fn, x),
                                  "%s::new edits the caller's skip configuration with `%s` before handing it to the sub-iterator: entries the caller listed can be dropped, so functions it asked to skip are visited" % (adt, x["method"]))
            for c in walk(fn["body"]):
                if c.get("k") == "Call" and (c.get("callee") or "").endswith("SubIterator::new"):
                    for a in c["args"]:
                        if "FunctionID" not in (a.get("ty") or "") or "FunctionID, usize)" in (a.get("ty") or ""):
                            continue  # not the skip configuration (the metadata carries (FunctionID, usize) pairs)
                        n += 1
                        # follow locals back to the parameter, collecting method names
                        meths, roots, stack_, seen = [], set(), [a], set()
                        while stack_:
                            e_ = stack_.pop()
                            for x in walk(e_):
                                if x.get("k") == "MethodCall":
                                    meths.append(x["method"])
                                if x.get("k") == "Path" and x.get("res", {}).get("r") == "local":
                                    h = x["res"]["hid"]
                                    if h in skip_params:
                                        roots.add(h)
                                    elif h not in seen:
                                        seen.add(h)
                                        for st in walk(fn["body"]):
                                            if st.get("k") == "Let" and st["pat"].get("hid") == h and "init" in st:
                                                stack_.append(st["init"])
                        bad = [m for m in meths if m not in OKM]
                        ok = bool(roots) and not bad
                        r.ob(ok, {"ctor": fn["path"], "skip_arg_methods": meths})
                        if not ok:
                            r.violate("%s | skip config %s" % (fn["path"], "+".join(bad) or "not from parameter"), F.loc(fn, c),
                                      "%s::new does not pass the caller's skip configuration through unchanged (%s): entries the caller listed can be dropped, so functions it asked to skip are visited" % (adt, ("applies " + ", ".join(bad)) if bad else "argument does not derive from the parameter"))
    r.count("skip_arguments", n)
    if n < 2:
        raise CheckError("expected the skip argument of both public iterator constructors, found %d" % n)
    return r


def location_addressing(F):
    """R-LOC-ADDRESS: the `*_at(loc, ..)` methods of the iterators and the function modifier act on the place their `loc`
    argument names, not on the place the cursor happens to be at: every index into `modules` / `functions.get_mut(..)` /
    `instructions[..]` in such a method is a component of the destructured `loc` (mod_idx / func_idx / instr_idx)."""
    from vlib.facts import binding_site
    r = RuleResult("R-LOC-ADDRESS",
                   "in every iterator / modifier method that takes a `loc: Location`, the module, function and instruction that are touched are addressed by the fields of that `loc` (never by the cursor)")
    n = 0
    n_deleg = [0]
    for fn in F.fns:
        if fn.get("body") is None or not (fn.get("self_adt") or "").endswith(("ComponentIterator", "ModuleIterator", "FunctionModifier")):
            continue
        locs = [pm["pat"]["hid"] for pm in fn.get("params", []) if pm["pat"].get("k") == "Binding" and (pm.get("ty") or "").endswith("Location")]
        if not locs:
            continue
        # bindings obtained by destructuring the loc parameter
        from_loc = {}
        for x in walk(fn["body"]):
            pat = scr = None
            if x.get("k") == "LetExpr":
                pat, scr = x["pat"], x["init"]
            elif x.get("k") == "Let" and "init" in x:
                pat, scr = x["pat"], x["init"]
            elif x.get("k") == "Match":
                for arm in x["arms"]:
                    s_ = peel(x["scrut"])
                    if s_.get("k") == "Path" and s_.get("res", {}).get("hid") in locs:
                        for sub in walk(arm["pat"]):
                            if sub.get("k") == "Struct" and isinstance(sub.get("fields"), list):
                                for fname, b in sub["fields"]:
                                    if b.get("k") == "Binding":
                                        from_loc[b["hid"]] = fname
                continue
            if pat is not None and peel(scr).get("k") == "Path" and peel(scr).get("res", {}).get("hid") in locs:
                for sub in walk(pat):
                    if sub.get("k") == "Struct" and isinstance(sub.get("fields"), list):
                        for fname, b in sub["fields"]:
                            if b.get("k") == "Binding":
                                from_loc[b["hid"]] = fname
        if not from_loc:
            continue
        touched = False

        def leaf(e):
            e = peel(e)
            while isinstance(e, dict) and (e.get("k") == "Cast" or (e.get("k") == "MethodCall" and e["method"] in ("clone", "into") and not e.get("args"))):
                e = peel(e.get("a") or e.get("recv"))
            return e
        for x in walk(fn["body"]):
            want = idx = None
            if x.get("k") == "Index" and (place_path(x["base"]) or "").endswith(".modules"):
                want, idx = "mod_idx", x["index"]
            elif x.get("k") == "Index" and (place_path(x["base"]) or "").endswith(".instructions"):
                want, idx = "instr_idx", x["index"]
            elif x.get("k") == "MethodCall" and x["method"] in ("get_mut", "get") and (place_path(x["recv"]) or "").endswith(".functions") and x.get("args"):
                want, idx = "func_idx", x["args"][0]
            if want is None:
                continue
            touched = True
            n += 1
            l_ = leaf(idx)
            src = from_loc.get(l_.get("res", {}).get("hid")) if l_.get("k") == "Path" else None
            ok = src == want
            if not ok and src is None:
                # derived from the location in some other way (a helper that destructures it, a let-else, a tuple): the
                # value still comes from `loc`; which component it is is not decided here
                def mentions_loc(e, depth=0):
                    if depth > 3 or not isinstance(e, dict):
                        return False
                    for y in walk(e):
                        if y.get("k") == "Path" and y.get("res", {}).get("hid") in locs:
                            return True
                        if y.get("k") == "Path" and y.get("res", {}).get("r") == "local" and y["res"].get("hid") in from_loc:
                            return True
                    for y in walk(e):
                        if y.get("k") == "Path" and y.get("res", {}).get("r") == "local":
                            _p, scr_, _k = binding_site(fn["body"], y["res"]["hid"])
                            if scr_ is not None and scr_ is not e and mentions_loc(scr_, depth + 1):
                                return True
                    return False
                def reads_cursor(e, depth=0):
                    if depth > 3 or not isinstance(e, dict):
                        return None
                    for y in walk(e):
                        if y.get("k") == "Field" and (place_path(y) or "").startswith("self.") and y["name"] in ("instr_idx", "curr_idx", "curr_instr", "curr_mod", "curr_func"):
                            return place_path(y)
                    for y in walk(e):
                        if y.get("k") == "Path" and y.get("res", {}).get("r") == "local":
                            _p, scr_, _k = binding_site(fn["body"], y["res"]["hid"])
                            if scr_ is not None and scr_ is not e:
                                c_ = reads_cursor(scr_, depth + 1)
                                if c_:
                                    return c_
                    return None
                cur_ = reads_cursor(idx)
                if cur_:
                    r.ob(False, {"fn": fn["path"], "addresses": want, "by": cur_})
                    r.violate("%s | %s via cursor" % (fn["path"], want), F.loc(fn, x),
                              "%s takes a location but lets the cursor `%s` decide the %s it touches: an edit aimed at another place lands where the cursor is" % (fn["name"], cur_, want))
                    continue
                if mentions_loc(idx):
                    r.undecided("%s: the %s index derives from `loc` through a helper or a tuple; which component it is was not decided" % (fn["path"], want))
                    continue
            r.ob(ok, {"fn": fn["path"], "addresses": want, "by": src or "something else"})
            if not ok:
                r.violate("%s | %s" % (fn["path"], want), F.loc(fn, x),
                          "%s takes a location but addresses the %s by %s instead of by the location's %s: an edit aimed at another place lands where the cursor is" % (
                              fn["name"], {"mod_idx": "module", "func_idx": "function", "instr_idx": "instruction"}[want], "`%s` of the location" % src if src else "a value not taken from the location", want))
        # a location-addressed method does not hand its work to a cursor-addressed method of the same type: a
        # `self.m(..)` whose `m` takes no location and lets the cursor or the function-level mode pick the place
        # (`inject`, the opcode helpers) sends the edit wherever that state points, whatever `loc` says
        adt_ = fn.get("self_adt")
        for x in walk(fn["body"]):
            if x.get("k") != "MethodCall" or place_path(x["recv"]) != "self":
                continue
            why = _cursor_addressed(F, x.get("inst") or x.get("callee"), adt_)
            n_deleg[0] += 1
            r.ob(why is None, {"fn": fn["path"], "delegates_to": x["method"], "cursor_addressed": why})
            if why:
                r.violate("%s | delegates to cursor-addressed %s" % (fn["path"], x["method"]), F.loc(fn, x),
                          "%s takes a location but hands the edit to `self.%s(..)`, which has no location parameter and works at the cursor (`%s`) under whatever mode is selected: with a function-level mode selected, or the cursor elsewhere, the edit does not land at the location named" % (
                              fn["name"], x["method"], why))
        if touched:
            r.analysed.append(fn["path"])
    r.count("addressed_sites", n)
    r.count("self_delegations", n_deleg[0])
    return r


def _cursor_addressed(F, callee, adt, depth=0):
    """the cursor field (`self.instr_idx`, `self.curr_*`) that lets a method of `adt` without a location parameter choose the
    place it edits; None if it reads none (or is not a method of `adt`).  A helper that only asks whether a function-level
    mode is selected (`self.instr_flag.current_mode.is_some()`) is not cursor-addressed: the location-addressed tag
    methods ask that themselves."""
    if not callee or depth > 2:
        return None
    fs = F.by_path.get(callee) or []
    if len(fs) != 1:
        return None
    g = fs[0]
    if g.get("body") is None or g.get("self_adt") != adt:
        return None
    if any((pm.get("ty") or "").endswith("Location") for pm in g.get("params", [])):
        return None
    for y in walk(g["body"]):
        if y.get("k") == "Field":
            pp = place_path(y) or ""
            if pp.startswith("self.") and y["name"] in ("instr_idx", "curr_idx", "curr_instr", "curr_mod", "curr_func"):
                return pp
    for y in walk(g["body"]):
        if y.get("k") == "MethodCall" and place_path(y["recv"]) == "self":
            w = _cursor_addressed(F, y.get("inst") or y.get("callee"), adt, depth + 1)
            if w:
                return w
    return None


def skip_membership(F):
    """R-SKIP-MEMBERSHIP: the skip configuration is a caller-supplied list used as a *set*: the only question the sub-iterators
    may ask of it is membership (`contains`, `contains_key`, `get`).  Its length says nothing about how many of a module's
    functions it names (duplicates, ids of other modules), so comparing the length of the raw list with anything decides
    visiting on a quantity unrelated to membership."""
    from vlib.facts import binding_site
    r = RuleResult("R-SKIP-MEMBERSHIP",
                   "in the sub-iterators the caller's raw skip list is only asked for membership: the length of the raw list (or of a copy of it) is never an operand of a comparison")
    PASS = ("clone", "cloned", "unwrap", "unwrap_or_default", "get", "contains_key", "to_vec", "as_slice", "as_ref", "iter", "copied", "collect", "to_owned", "into_iter", "expect", "unwrap_or", "map", "unwrap_or_else", "into", "borrow", "deref")
    n_reads = 0
    for adt in ("ModuleSubIterator", "ComponentSubIterator"):
        for fn in F.find_fns(self_adt=adt):
            if fn.get("body") is None:
                continue
            r.analysed.append(fn["path"])

            def raw(e, depth=0):
                """e is the raw skip list (or a copy of it / of one module's entry)"""
                e = peel(e)
                if depth > 4 or not isinstance(e, dict):
                    return False
                if e.get("k") == "Field":
                    return e["name"] == "skip_funcs"
                if e.get("k") == "Path" and e.get("res", {}).get("r") == "local":
                    pm = [p for p in fn.get("params", []) if p["pat"].get("hid") == e["res"].get("hid")]
                    if pm:
                        return fn["name"] == "new" and pm[0]["pat"].get("name") in ("skip_funcs", "skips")
                    _p, scr, _k = binding_site(fn["body"], e["res"]["hid"])
                    return scr is not None and raw(scr, depth + 1)
                if e.get("k") == "MethodCall":
                    return e["method"] in PASS and raw(e["recv"], depth)
                if e.get("k") == "Match":
                    return any(raw(a["body"], depth) for a in e["arms"])
                if e.get("k") == "If":
                    return raw(e["then"], depth) or ("else" in e and raw(e["else"], depth))
                if e.get("k") == "Block" and e.get("expr") is not None:
                    return raw(e["expr"], depth)
                return False
            for x in walk(fn["body"]):
                if x.get("k") == "Field" and x["name"] == "skip_funcs":
                    n_reads += 1
                if x.get("k") == "Binary" and x.get("op") in ("<", "<=", ">", ">=", "==", "!="):
                    for side in ("a", "b"):
                        o = peel(x[side])
                        if o.get("k") == "MethodCall" and o["method"] in ("len", "count") and raw(o["recv"]):
                            r.ob(False, {"fn": fn["path"], "compares": snippet(_repo(), fn["file"], x["sp"])})
                            r.violate("%s | skip-list length compared" % fn["path"], F.loc(fn, x),
                                      "%s::%s decides on `%s`: the length of the caller's skip list is not the number of this module's functions it names (duplicates, ids the module does not have), so functions that were not skipped can be passed over — or skipped ones visited" % (
                                          adt, fn["name"], snippet(_repo(), fn["file"], x["sp"])))
    # a membership test decides about the function it is asked about; "is anything left to visit" is a search over the
    # remaining functions.  A single test of the element at `curr_idx + k`, outside any loop or search combinator, is a
    # one-element look-ahead standing in for that search.
    SEARCH = ("take_while", "skip_while", "any", "all", "find", "position", "filter", "find_map", "filter_map", "rposition", "rfind")
    n_tests = 0
    for fn in F.find_fns(self_adt="ModuleSubIterator"):
        if fn.get("body") is None:
            continue

        def ahead(e):
            """`metadata.get(curr_idx + k)` / `metadata[curr_idx + k]`, k a literal: the element k places after the cursor"""
            for y in walk(e):
                ix = None
                if y.get("k") == "Index" and (place_path(y["base"]) or "").endswith("metadata"):
                    ix = y["index"]
                elif y.get("k") == "MethodCall" and y["method"] == "get" and (place_path(y["recv"]) or "").endswith("metadata") and y.get("args"):
                    ix = y["args"][0]
                if ix is not None:
                    ix = peel(ix)
                    if ix.get("k") == "Binary" and ix.get("op") == "+" and any((place_path(ix[s_]) or "").endswith("curr_idx") for s_ in ("a", "b")) \
                            and any(peel(ix[s_]).get("k") == "Lit" for s_ in ("a", "b")):
                        return y
            return None

        def rec(node, in_search, peeked):
            nonlocal n_tests
            if isinstance(node, list):
                for v in node:
                    rec(v, in_search, peeked)
                return
            if not isinstance(node, dict):
                return
            k = node.get("k")
            if k == "Loop":
                in_search = True
            if k == "MethodCall":
                if node["method"] == "contains" and (place_path(node["recv"]) or "").endswith("skip_funcs"):
                    n_tests += 1
                    arg_peek = peeked
                    for y in walk(node.get("args") or []):
                        if y.get("k") == "Path" and y.get("res", {}).get("r") == "local":
                            _p, scr, _k = binding_site(fn["body"], y["res"]["hid"])
                            if scr is not None and ahead(scr) is not None:
                                arg_peek = True
                    if ahead(node.get("args") or []) is not None:
                        arg_peek = True
                    ok = in_search or not arg_peek
                    r.ob(ok, {"fn": fn["path"], "membership_test": "in a loop/search" if in_search else ("of a look-ahead element" if arg_peek else "of a given function")})
                    if not ok:
                        r.violate("%s | one-element look-ahead" % fn["path"], F.loc(fn, node),
                                  "ModuleSubIterator::%s asks the skip list about the single element after the cursor, outside any loop or search: when that one is skipped and a later one is not, the answer is wrong and the remaining functions are never visited" % fn["name"])
                rec(node["recv"], in_search, peeked)
                sub_search = in_search or node["method"] in SEARCH
                sub_peek = peeked or (ahead(node["recv"]) is not None)
                rec(node.get("args") or [], sub_search, sub_peek)
                if isinstance(node.get("inlined"), dict):
                    rec(node["inlined"], in_search, peeked)   # a private helper whose body was attached (vlib/canon.py)
                return
            for kk, v in node.items():
                if isinstance(v, (dict, list)):
                    rec(v, in_search, peeked)
        rec(fn["body"], False, False)
    r.count("membership_tests", n_tests)
    if n_tests < 1:
        raise CheckError("no membership test of the function skip list found in ModuleSubIterator (anchor moved?)")
    r.ob(True, {"skip_list_reads": n_reads})
    r.count("skip_list_reads", n_reads)
    if n_reads < 4:
        raise CheckError("skip-list reads not found in the sub-iterators (anchor moved?): %d" % n_reads)
    return r
