"""R-MODE-FIELD, R-HAS-INSTR, R-EMIT-ORDER: lowering of the plain modes."""
import re

from vlib.facts import pat_variants, walk, pat_alternatives, peel, place_path, CheckError, uncond_before, conditional_ancestors
from vlib.paths import paths, normal_paths, implied_some_iflets
from vlib.report import RuleResult

IM = "ir::types::InstrumentationMode"
FM = "ir::types::FuncInstrMode"
IFLAG = "ir::types::InstrumentationFlag"
FFLAG = "ir::types::FuncInstrFlag"


def snake(name):
    return re.sub(r"(?<!^)([A-Z])", r"_\1", name).lower()


def _mode_variants_in(pat, adt):
    out = set()
    for n in walk(pat):
        if n.get("k") in ("Path", "Struct", "TupleStruct") and n.get("adt") == adt and n.get("variant"):
            out.add(n["variant"])
    return out


def _self_fields(body):
    """names of `self.<field>` touched in body (direct field of self)"""
    out = set()
    for n in walk(body):
        if n.get("k") == "Field":
            b = peel(n["base"])
            if b.get("k") == "Path" and b["res"].get("r") == "local" and b["res"]["name"] == "self":
                out.add(n["name"])
    return out


def mode_field(F):
    r = RuleResult("R-MODE-FIELD",
                   "in every method of InstrumentationFlag / FuncInstrFlag that dispatches on the mode, the arm for mode M touches only the list snake_case(M) (Before→before, …, BlockAlt→block_alt; Entry→entry, Exit→exit)")
    n_sib = 0
    for adt, modeadt in ((IFLAG, IM), (FFLAG, FM)):
        modes = set(F.variants(modeadt))
        lists = {f["name"] for f in F.variants(adt)[adt.split("::")[-1]]["fields"]} if adt.split("::")[-1] in F.variants(adt) else None
        if lists is None:
            lists = {f["name"] for v in F.adt(adt)["variants"] for f in v["fields"]}
        for m in modes:
            if snake(m) not in lists:
                raise CheckError("mode %s::%s has no field %s in %s" % (modeadt, m, snake(m), adt))
        instr_fields = {snake(m) for m in modes}
        for fn in F.find_fns(self_adt=adt.split("::")[-1]):
            if fn.get("body") is None:
                continue
            for mt in [x for x in walk(fn["body"]) if x.get("k") == "Match"]:
                arm_modes = [(_mode_variants_in(a["pat"], modeadt), a) for a in mt["arms"]]
                if not any(ms for ms, _ in arm_modes):
                    continue
                n_sib += 1
                r.analysed.append(fn["path"])
                for ms, arm in arm_modes:
                    if not ms:
                        continue
                    touched = _self_fields(arm["body"]) & instr_fields
                    allowed = {snake(m) for m in ms}
                    ok = touched <= allowed
                    r.ob(ok, {"fn": fn["path"], "mode": sorted(ms), "touches": sorted(touched)})
                    if not ok:
                        r.violate("%s | %s" % (fn["path"], "+".join(sorted(ms))), F.loc(fn, arm),
                                  "arm for mode %s touches list(s) %s (expected only %s)" % (sorted(ms), sorted(touched - allowed), sorted(allowed)))
                    # an arm that neither touches its list nor diverges drops the request
                    if not touched and arm["body"].get("ty") != "!" and len(ms) == 1:
                        # allowed only if the body is a constant unrelated to lists (e.g. `&None`) — report as info
                        r.info.append("%s: arm for %s touches no list" % (fn["path"], sorted(ms)))
    r.count("dispatch_sites", n_sib)
    return r


def has_instr_cover(F):
    r = RuleResult("R-HAS-INSTR",
                   "InstrumentationFlag::has_instr / FuncInstrFlag::has_instr consult every injection list (a list it ignores is silently skipped by the encoder)")
    for adt, ignore in ((IFLAG, {"current_mode"}), (FFLAG, {"current_mode", "has_special_instr"})):
        short = adt.split("::")[-1]
        fn = F.one_fn(name="has_instr", self_adt=short)
        r.analysed.append(fn["path"])
        fields = {f["name"] for v in F.adt(adt)["variants"] for f in v["fields"]} - ignore
        # fields bound by a destructuring pattern and later referenced, or read as self.f
        bound = {}
        for n in walk(fn["body"]):
            if n.get("k") == "Struct" and "fields" in n and n.get("adt") == adt and "pat" not in n:
                pass
        for n in walk(fn["body"]):
            if n.get("k") == "Let" and n["pat"].get("k") == "Struct" and n["pat"].get("adt") == adt:
                for fname, sub in n["pat"]["fields"]:
                    if sub.get("k") == "Binding":
                        bound[sub["hid"]] = fname
        used = set(_self_fields(fn["body"]))
        for n in walk(fn["body"]):
            if n.get("k") == "Path" and n.get("res", {}).get("r") == "local" and n["res"].get("hid") in bound:
                used.add(bound[n["res"]["hid"]])
        for f in sorted(fields):
            ok = f in used
            r.ob(ok, {"fn": fn["path"], "list": f, "consulted": ok})
            if not ok:
                r.violate("%s | %s" % (fn["path"], f), F.loc(fn), "has_instr ignores list `%s`: instrumentation stored there is skipped at encode time" % f)
    return r


def _prov_field(e, binds):
    """Which InstrumentationFlag list / `op` does this argument expression come from?"""
    for n in walk(e):
        if n.get("k") == "Path" and n.get("res", {}).get("r") == "local":
            h = n["res"].get("hid")
            if h in binds:
                return binds[h]
        if n.get("k") == "Field" and n["name"] in ("before", "after", "alternate", "op"):
            return n["name"]
    return None


def emit_order(F):
    r = RuleResult("R-EMIT-ORDER",
                   "in the code-section loop of encode_internal every path emits: before-list, then exactly one of {alternate-list, original op}, then after-list; the original op is emitted iff no alternate applies; at the function's final `end` (at_end) only before and the op are emitted")
    fn = F.one_fn(name="encode_internal", self_adt="Module")
    r.analysed.append(fn["path"])
    # locate the `let InstrumentationFlag { before, after, alternate, .. } = instrument;` destructuring
    target = None
    for blk in walk(fn["body"]):
        if blk.get("k") != "Block":
            continue
        for st in blk["stmts"]:
            if st["k"] == "Let" and st["pat"].get("k") == "Struct" and st["pat"].get("adt") == IFLAG:
                names = {f for f, _ in st["pat"]["fields"]}
                if {"before", "after", "alternate"} <= names:
                    target = (blk, st)
    if target is None:
        raise CheckError("encode_internal: destructuring of InstrumentationFlag{before, after, alternate} not found")
    blk, st = target
    binds = {}
    for fname, sub in st["pat"]["fields"]:
        for b in walk(sub):
            if b.get("k") == "Binding":
                binds[b["hid"]] = fname
    # `if let Some(alt) = alternate` rebinding → still 'alternate'
    for n in walk(blk):
        if n.get("k") == "LetExpr":
            src = _prov_field(n["init"], binds)
            if src:
                for b in walk(n["pat"]):
                    if b.get("k") == "Binding":
                        binds[b["hid"]] = src
    # `match alternate { Some(alt) [if ..] => .. }` rebinding → still 'alternate'
    for n in walk(blk):
        if n.get("k") == "Match" and n.get("src") not in ("ForLoopDesugar", "TryDesugar"):
            src = _prov_field(n.get("scrut") or {}, binds)
            if src:
                for arm in n["arms"]:
                    for b in walk(arm["pat"]):
                        if b.get("k") == "Binding":
                            binds[b["hid"]] = src
    # the loop pattern binds `op`
    loop_binds = {}
    for n in walk(fn["body"]):
        if n.get("k") == "Struct" and n.get("adt") == "ir::types::Instruction" and "rest" in n:
            for fname, sub in n["fields"]:
                for b in walk(sub):
                    if b.get("k") == "Binding":
                        loop_binds[b["hid"]] = "op" if fname == "op" else fname
    binds.update({h: v for h, v in loop_binds.items() if v == "op"})
    # at_end binding
    at_end_hid = None
    for s2 in blk["stmts"]:
        if s2["k"] == "Let" and s2["pat"].get("k") == "Binding" and s2["pat"]["name"] == "at_end":
            at_end_hid = s2["pat"]["hid"]

    from rules.emit import encoder_roles
    roles = encoder_roles(F)

    # a `for instr in <list>.iter_mut() { fix..(instr); encode(instr) }` written out in place of the list emitter: the loop
    # as a whole is the emission of that list (however many items it has); the per-item calls inside are not events
    list_loops = {}
    item_binds = {}
    for m_ in walk(blk):
        if m_.get("k") == "Match" and m_.get("src") == "ForLoopDesugar":
            src_ = _prov_field(m_["scrut"], binds)
            if src_ in ("before", "after", "alternate"):
                inner_ = [x for x in walk(m_["arms"][0]["body"]) if x.get("k") == "Match" and x is not m_]
                hs = {b["hid"] for arm in (inner_[0]["arms"] if inner_ else []) for b in walk(arm["pat"]) if b.get("k") == "Binding"}
                if any(x.get("k") == "Call" and roles.get(x.get("callee")) in ("ENC", "FIXENC") and any(y.get("k") == "Path" and y.get("res", {}).get("hid") in hs for a_ in x["args"] for y in walk(a_))
                       for x in walk(m_["arms"][0]["body"])):
                    list_loops[id(m_)] = src_
                    for h_ in hs:
                        item_binds[h_] = src_

    def classify(n):
        if id(n) in list_loops:
            return "emit:%s" % list_loops[id(n)]
        if n.get("k") == "Call" and n.get("callee"):
            if roles.get(n["callee"]) in ("ENC", "FIXENC") and n["args"]:
                opa = next((a_ for a_ in n["args"] if "Operator" in (a_.get("ty") or "")), n["args"][0])
                if any(y.get("k") == "Path" and y.get("res", {}).get("hid") in item_binds for y in walk(opa)):
                    return None      # one item of a list loop (see list_loops)
                src = _prov_field(opa, binds)
                return "emit:%s" % src
        if n.get("k") == "Path" and n.get("res", {}).get("hid") == at_end_hid and at_end_hid is not None:
            return None
        return None

    # emission events on every path through the statements after the destructuring
    idx = blk["stmts"].index(st)
    tail = {"k": "Block", "stmts": blk["stmts"][idx + 1:], "expr": blk.get("expr")}
    irr = implied_some_iflets(tail)
    # a `continue` out of the instrumented-instruction branch is an exit of this iteration like falling off its end
    ps = [(ev, st_) for ev, st_ in paths(tail, classify, irrefutable=lambda n: id(n) in irr) if st_ in ("fall", "ret", "cont")]
    seqs = sorted({ev for ev, _ in ps})
    r.count("emit_paths", len(seqs))
    allowed = {
        ("emit:before", "emit:alternate", "emit:after"),
        ("emit:before", "emit:op", "emit:after"),
        ("emit:before", "emit:op"),            # at_end: after-list dropped
        ("emit:before", "emit:alternate"),     # infeasible (alt requires !at_end) but harmless to order: judged below
    }
    for sq in seqs:
        ok = sq in allowed
        r.ob(ok, {"path_emits": list(sq)})
        if not ok:
            r.violate("%s | order %s" % (fn["path"], ">".join(sq)), F.loc(fn, st),
                      "a path through the instrumented-instruction branch emits %s; expected before, then exactly one of alternate/op, then after" % (list(sq),))
    need = {("emit:before", "emit:alternate", "emit:after"), ("emit:before", "emit:op", "emit:after"), ("emit:before", "emit:op")}
    for sq in need:
        ok = sq in seqs
        r.ob(ok)
        if not ok:
            r.violate("%s | missing %s" % (fn["path"], ">".join(sq)), F.loc(fn, st),
                      "no path emits %s" % (list(sq),))
    # guards: the alternate emission and the after emission are each under a condition that reads !at_end
    guards = {}

    def scan(node, conds):
        k = node.get("k") if isinstance(node, dict) else None
        if k == "If":
            scan(node["cond"], conds)
            scan(node["then"], conds + [("T", node["cond"])])
            if "else" in node:
                scan(node["else"], conds + [("F", node["cond"])])
            return
        if k == "Match" and id(node) not in list_loops and node.get("src") not in ("ForLoopDesugar", "TryDesugar"):
            scan(node.get("scrut") or {}, conds)
            on_alt = _prov_field(node.get("scrut") or {}, binds) == "alternate"
            earlier = []
            for arm in node["arms"]:
                extra = list(earlier)
                if "guard" in arm:
                    extra.append(("T", arm["guard"]))
                    scan(arm["guard"], conds)
                if on_alt and not any(b.get("k") == "Binding" for b in walk(arm["pat"])) and earlier == [] and False:
                    pass
                scan(arm["body"], conds + extra + ([("ALT-ELSE", node)] if on_alt and not any(v_ == "Some" for _a, v_ in pat_variants(arm["pat"])[0]) else []))
            return
        if k == "Call" or (k == "Match" and id(node) in list_loops):
            lab = classify(node)
            if lab:
                guards.setdefault(lab, []).append(list(conds))
        if isinstance(node, dict):
            for v in node.values():
                if isinstance(v, (dict, list)):
                    scan(v, conds)
        elif isinstance(node, list):
            for v in node:
                scan(v, conds)

    scan(tail, [])

    def mentions_not_at_end(cond_list, polarity_needed):
        # some enclosing condition contains `!at_end` with then-polarity
        for pol, c in cond_list:
            for n in walk(c):
                if n.get("k") == "Unary" and n.get("op") == "!":
                    a = peel(n["a"])
                    if a.get("k") == "Path" and a["res"].get("hid") == at_end_hid:
                        if pol == polarity_needed:
                            return True
        return False

    for lab in ("emit:alternate", "emit:after"):
        sites = guards.get(lab, [])
        ok = bool(sites) and all(mentions_not_at_end(c, "T") for c in sites)
        r.ob(ok, {"sink": lab, "guarded_by_not_at_end": ok})
        if not ok:
            r.violate("%s | %s unguarded" % (fn["path"], lab), F.loc(fn, st), "%s is not guarded by `!at_end`" % lab)
    # the op emission in the instrumented branch sits in the else-branch of the alternate test
    sites = guards.get("emit:op", [])
    ok = bool(sites) and all(any((pol == "F" and any(x.get("k") == "MethodCall" and x.get("method") == "is_none" for x in walk(c))) or pol == "ALT-ELSE" for pol, c in cl) for cl in sites)
    r.ob(ok)
    if not ok:
        r.violate("%s | op-not-else-of-alternate" % fn["path"], F.loc(fn, st), "original op emission is not the else-branch of the `alternate` test")
    # at_end definition: idx >= instructions.len() - 1
    r.count("guarded_sinks", len(guards))
    return r


def clear_coherent(F):
    """R-CLEAR-COHERENT: has_instr states, per list, what "holds instrumentation" means (`!f.instrs.is_empty()` or
    `!f.is_none()` — for the Option lists Some(vec![]) MEANS removal).  clear_instr(M) must establish the negation
    of exactly that predicate for f(M): `.clear()` for is_empty lists, `= None` for is_none lists."""
    r = RuleResult("R-CLEAR-COHERENT",
                   "clear_instr(M) leaves list f(M) in the state has_instr / check_special_is_resolved treat as empty: lists tested with is_none() are reset to None (Some(empty) means removal), lists tested with instrs.is_empty() are cleared")
    short = IFLAG.split("::")[-1]
    hi = F.one_fn(name="has_instr", self_adt=short)
    cl = F.one_fn(name="clear_instr", self_adt=short)
    r.analysed += [hi["path"], cl["path"]]
    bound = {}
    for n in walk(hi["body"]):
        if n.get("k") == "Let" and n["pat"].get("k") == "Struct" and n["pat"].get("adt") == IFLAG:
            for fname, sub in n["pat"]["fields"]:
                if sub.get("k") == "Binding":
                    bound[sub["hid"]] = fname
    test = {}
    for n in walk(hi["body"]):
        if n.get("k") == "MethodCall" and n["method"] in ("is_none", "is_some", "is_empty"):
            base = n["recv"]
            fld = None
            for x in walk(base):
                if x.get("k") == "Path" and x.get("res", {}).get("hid") in bound:
                    fld = bound[x["res"]["hid"]]
                if x.get("k") == "Field" and peel(x["base"]).get("res", {}).get("name") == "self":
                    fld = x["name"]
            if fld:
                test[fld] = "none" if n["method"] in ("is_none", "is_some") else "empty"
    modes = set(F.variants(IM))
    n = 0
    for mt in [x for x in walk(cl["body"]) if x.get("k") == "Match"]:
        for arm in mt["arms"]:
            ms = _mode_variants_in(arm["pat"], IM)
            for m in ms:
                f = snake(m)
                want = test.get(f)
                if want is None:
                    continue
                n += 1
                got = None
                for x in walk(arm["body"]):
                    if x.get("k") == "Assign" and (place_path(x["lhs"]) or "") == "self." + f:
                        rhs = peel(x["rhs"])
                        if rhs.get("res", {}).get("variant") == "None" or (rhs.get("k") == "Path" and (rhs.get("res", {}).get("path") or "").endswith("None")):
                            got = "none"
                        else:
                            got = "assigned"
                    if x.get("k") == "MethodCall" and x["method"] == "clear" and (place_path(x["recv"]) or "").startswith("self." + f + ".") and got is None:
                        got = "empty"
                    if x.get("k") == "MethodCall" and x["method"] == "take" and (place_path(x["recv"]) or "") == "self." + f:
                        got = "none"
                ok = got == want
                r.ob(ok, {"mode": m, "list": f, "has_instr_tests": want, "clear_establishes": got})
                if not ok:
                    r.violate("%s | %s" % (cl["path"], m), F.loc(cl, arm),
                              "clear_instr(%s) leaves `%s` %s, but has_instr treats the list as holding instrumentation unless it %s: a resolved injection is seen again (and re-lowered) by the next encode" % (
                                  m, f, {"empty": "Some(empty)/cleared in place", "assigned": "assigned a non-None value", None: "untouched"}.get(got, got),
                                  "is None" if want == "none" else "is empty"))
    r.count("cleared_modes", n)
    if n < len(modes):
        # a mode that has_instr does not test at all (R-HAS-INSTR reports that) or that clear_instr handles in a shape this
        # rule does not read: nothing contradicts the pairing for it
        r.undecided("clear_instr/has_instr: %d of %d modes paired; the others were not analysed" % (n, len(modes)))
    return r


def inject_at_protocol(F):
    """R-INJECT-AT: every implementation of InjectAt::inject_at selects the requested mode at the requested index before
    it files the instruction: set_instrument_mode_at(mode, loc) is evaluated on every path that reaches
    add_instr_at(loc, instr), with the same location value, the `mode` parameter and the `idx` parameter as instr_idx."""
    r = RuleResult("R-INJECT-AT",
                   "every InjectAt::inject_at sets the requested mode at the requested instruction on every path before adding the instruction there (set_instrument_mode_at(mode, loc) structurally dominates add_instr_at(loc, instr); loc.instr_idx is the idx parameter)")
    impls = [f for f in F.fns if f["name"] == "inject_at" and f.get("body") is not None and (f.get("impl_trait") or "").endswith("InjectAt")]
    if len(impls) < 3:
        impls = [f for f in F.fns if f["name"] == "inject_at" and f.get("body") is not None]
    r.count("inject_at_impls", len(impls))
    for fn in impls:
        r.analysed.append(fn["path"])
        ph = {p["pat"].get("name"): p["pat"].get("hid") for p in fn["params"] if p["pat"].get("k") == "Binding"}
        names = [p["pat"].get("name") for p in fn["params"]]
        # by position: (self, idx, mode, instr)
        hid_idx = fn["params"][1]["pat"].get("hid")
        hid_mode = fn["params"][2]["pat"].get("hid")
        sets = [c for c in walk(fn["body"]) if c.get("k") == "MethodCall" and c["method"] == "set_instrument_mode_at"]
        adds = [c for c in walk(fn["body"]) if c.get("k") == "MethodCall" and c["method"] == "add_instr_at"]
        ok = bool(adds) and bool(sets)
        why = "no set_instrument_mode_at / add_instr_at call"
        for A in adds:
            loc_a = peel(A["args"][0]).get("res", {}).get("hid")
            good = False
            for S in sets:
                d_ok, d_why = uncond_before(fn["body"], S, A)
                m_ok = peel(S["args"][0]).get("res", {}).get("hid") == hid_mode
                l_ok = peel(S["args"][1]).get("res", {}).get("hid") == loc_a and loc_a is not None
                if d_ok and m_ok and l_ok:
                    good = True
                elif not d_ok:
                    why = "set_instrument_mode_at %s add_instr_at" % d_why
                elif not m_ok:
                    why = "set_instrument_mode_at is not given the `mode` parameter"
                else:
                    why = "mode is set at a different location than the instruction is added to"
            if not good:
                ok = False
            # loc literal: instr_idx := idx parameter
            if loc_a is not None:
                for st in walk(fn["body"]):
                    if st.get("k") == "Let" and st["pat"].get("hid") == loc_a and "init" in st:
                        lit = peel(st["init"])
                        if lit.get("k") == "Struct":
                            fs = {k: peel(v) for k, v in lit["fields"]}
                            if "instr_idx" in fs and fs["instr_idx"].get("res", {}).get("hid") != hid_idx:
                                ok, why = False, "the location's instr_idx is not the idx parameter"
        r.ob(ok, {"impl": fn["path"], "mode_set_before_add": ok})
        if not ok:
            r.violate("%s | protocol" % fn["path"], F.loc(fn), "inject_at does not select the requested mode at the requested instruction on every path before filing the instruction: %s (the instruction lands in whatever list was current)" % why)
    if len(impls) < 3:
        raise CheckError("expected 3 InjectAt::inject_at implementations, found %d" % len(impls))
    return r



def _div(e):
    e = peel(e)
    if e.get("ty") == "!":
        return True
    if e.get("k") == "Block":
        if e.get("expr") is not None:
            return _div(e["expr"])
        if e.get("stmts"):
            last = e["stmts"][-1]
            return _div(last.get("e") or {})
    return False


def mode_setters(F):
    """R-MODE-SETTER: (a) every implementation of set_instrument_mode_at stores exactly the mode it was given (the parameter
    itself, not a value recomputed from it) into current_mode; (b) in InstrumentationFlag::add_instr the arms of the plain
    modes (Before, After, Alternate) file the instruction unconditionally — whether code is 'reachable' is not the
    library's call."""
    r = RuleResult("R-MODE-SETTER",
                   "set_instrument_mode_at stores the requested mode unchanged; add_instr files Before/After/Alternate code unconditionally")
    impls = [f for f in F.fns if f["name"] == "set_instrument_mode_at" and f.get("body") is not None]
    r.count("mode_setter_impls", len(impls))
    for fn in impls:
        r.analysed.append(fn["path"])
        hid_mode = fn["params"][1]["pat"].get("hid")
        direct = []   # assignments to ..current_mode
        passes = []   # delegations: a call that receives the mode parameter
        for x in walk(fn["body"]):
            if x.get("k") == "Assign" and (place_path(x["lhs"]) or "").endswith("current_mode"):
                direct.append(x)
            if x.get("k") in ("Call", "MethodCall"):
                for a_ in x.get("args", []):
                    if peel(a_).get("res", {}).get("hid") == hid_mode:
                        passes.append(x)
        ok = bool(direct or passes)
        why = "neither stores nor forwards the mode"
        for d in direct:
            rhs = peel(d["rhs"])
            inner = None
            if rhs.get("k") == "Call" and (rhs.get("fres") or {}).get("variant") == "Some" and rhs["args"]:
                inner = peel(rhs["args"][0])
            if not (inner is not None and inner.get("k") == "Path" and inner.get("res", {}).get("hid") == hid_mode):
                ok, why = False, "stores a value other than the `mode` parameter (e.g. one recomputed from it)"
            def _dispatch_only(c):
                # `if let Location::X{..} = loc {..} else { panic }` / `match kind { Import => panic, Local(l) => .. }`
                if c.get("k") == "If":
                    return peel(c["cond"]).get("k") == "LetExpr" and ("else" not in c or peel(c["else"]).get("ty") == "!" or _div(c["else"]))
                if c.get("k") == "Match":
                    return all(_div(a2["body"]) or any(y is d for y in walk(a2["body"])) for a2 in c["arms"])
                return False
            if not all(_dispatch_only(c) for c in (conditional_ancestors(fn["body"], d) or [])):
                ok, why = False, "stores the mode only under a condition"
        r.ob(ok, {"impl": fn["path"], "stores_given_mode": ok})
        if not ok:
            r.violate("%s | mode" % fn["path"], F.loc(fn), "set_instrument_mode_at %s: code injected afterwards lands in a different list than requested" % why)
    if len(impls) < 3:
        raise CheckError("expected ≥3 set_instrument_mode_at implementations, found %d" % len(impls))
    # (b) plain-mode arms of add_instr
    ai = F.one_fn(name="add_instr", self_adt="InstrumentationFlag")
    r.analysed.append(ai["path"])
    n = 0
    # decided by cases on the current mode (shape-independent): with the mode set to Before / After / Alternate, every
    # normal path through add_instr consumes (pushes / stores) the instruction it was given
    val_hid = ai["params"][-1]["pat"].get("hid")
    for pm in ai["params"]:
        if "Operator" in (pm.get("ty") or "") and not (pm.get("ty") or "").startswith("&"):
            val_hid = pm["pat"].get("hid")

    def clf(x, val_hid=val_hid):
        if x.get("k") == "Path" and x.get("res", {}).get("hid") == val_hid:
            return "USE"
        return None
    for m in ("Before", "After", "Alternate"):
        n += 1
        sel_, inl_ = mode_case_callbacks(F, IM, m)
        ps_ = normal_paths(paths(ai["body"], clf, select_arms=sel_, inline_calls=inl_))
        ok = bool(ps_) and all("USE" in ev for ev, _ in ps_)
        r.ob(ok, {"add_instr in mode": m, "files_unconditionally": ok})
        if not ok:
            r.violate("%s | %s conditional" % (ai["path"], m), F.loc(ai), "add_instr files %s-mode code only under a condition: an accepted injection is silently dropped for some instructions" % m)
    # an existing alternate / block alternate (and the tag appended to it) is extended, never replaced: add_instr assigns
    # `self.alternate = Some(..)` only where the slot is known to be None
    from vlib.facts import path_to, pat_variants
    for a_ in walk(ai["body"]):
        if a_.get("k") != "Assign":
            continue
        lp = place_path(a_["lhs"]) or ""
        if not lp.endswith((".alternate", ".block_alt")):
            continue
        known_none = False
        pth = path_to(ai["body"], a_) or []
        for i_, (anc, _role) in enumerate(pth):
            if not isinstance(anc, dict):
                continue
            if anc.get("k") == "Match" and (place_path(anc.get("scrut") or {}) or "").endswith(lp.split(".")[-1]):
                for arm in anc["arms"]:
                    if any(x is a_ for x in walk(arm["body"])):
                        vs, wild = pat_variants(arm["pat"])
                        known_none = (not wild) and {v for _a, v in vs} == {"None"} and "guard" not in arm
            if anc.get("k") == "If" and peel(anc["cond"]).get("k") == "LetExpr" and (place_path(peel(anc["cond"])["init"]) or "").endswith(lp.split(".")[-1]):
                vs, wild = pat_variants(peel(anc["cond"])["pat"])
                in_else = "else" in anc and any(x is a_ for x in walk(anc["else"]))
                in_then = any(x is a_ for x in walk(anc["then"]))
                if {v for _a, v in vs} == {"Some"} and in_else:
                    known_none = True
                if {v for _a, v in vs} == {"None"} and in_then:
                    known_none = True
            if anc.get("k") == "If" and any(x.get("k") == "MethodCall" and x["method"] == "is_none" and (place_path(x["recv"]) or "").endswith(lp.split(".")[-1]) for x in walk(anc["cond"])) \
                    and any(x is a_ for x in walk(anc["then"])):
                known_none = True
        r.ob(known_none, {"add_instr assigns": lp, "only where the slot is None": known_none})
        if not known_none:
            r.violate("%s | overwrites %s" % (ai["path"], lp.split(".")[-1]), F.loc(ai, a_),
                      "add_instr can assign `%s` while it already holds a list: the instructions or the tag recorded there so far are discarded" % lp)
    r.count("plain_mode_arms", n)
    return r


def mode_helpers(F):
    """R-MODE-HELPERS: the name of every mode-selecting helper of the injection API denotes the mode constant it sets:
    before/after/alternate/semantic_after/block_entry/block_exit/block_alt (+ `_at` variants) ↦ InstrumentationMode::<Camel>,
    func_entry/func_exit ↦ FuncInstrMode::Entry/Exit.  (18 one-line default methods; a copy-paste slip among them compiles.)"""
    r = RuleResult("R-MODE-HELPERS",
                   "every mode-selecting helper (before, after, alternate, semantic_after, block_entry, block_exit, block_alt, their _at forms, func_entry, func_exit) passes the mode constant its name denotes to the mode setter, exactly once")
    n = 0
    for fn in F.fns:
        if fn.get("body") is None:
            continue
        nm = fn["name"]
        base = nm[:-3] if nm.endswith("_at") else nm
        if base.startswith("func_"):
            want_adt, want = FM, base[5:].capitalize()
        else:
            want_adt, want = IM, "".join(p.capitalize() for p in base.split("_"))
        if want not in F.variants(want_adt) or base.startswith(("empty_", "set_", "curr_", "get_", "add_", "clear_")):
            continue
        # a helper = a method whose body calls a mode setter with a constant
        sets = []
        for c in walk(fn["body"]):
            if c.get("k") == "MethodCall" and c["method"] in ("set_instrument_mode", "set_instrument_mode_at", "set_func_instrument_mode") and c["args"]:
                a0 = peel(c["args"][0])
                if a0.get("k") == "Path" and a0.get("res", {}).get("variant"):
                    sets.append((c, a0["res"].get("adt"), a0["res"]["variant"]))
        if not sets:
            continue
        n += 1
        r.analysed.append(fn["path"])
        ok = len(sets) == 1 and sets[0][1] == want_adt and sets[0][2] == want and not (conditional_ancestors(fn["body"], sets[0][0]) or [])
        r.ob(ok, {"helper": fn["path"].split("::")[-1], "sets": [s_[2] for s_ in sets], "expected": want})
        if not ok:
            r.violate("%s | mode constant" % fn["path"], F.loc(fn), "helper `%s` selects mode %s; its name denotes %s: code injected after it is lowered as a different kind of probe" % (nm, [s_[2] for s_ in sets], want))
    r.count("mode_helpers", n)
    if n < 14:
        raise CheckError("expected ≥14 mode-selecting helpers, found %d" % n)
    # only the selectors select: no other default method of the injection traits changes the current mode as a side effect
    SEL = {"before", "after", "alternate", "semantic_after", "block_entry", "block_exit", "block_alt", "func_entry", "func_exit"}
    SETTERS = {"set_instrument_mode_at", "set_func_instrument_mode", "set_instrument_mode"}
    for fn in F.fns:
        if fn.get("body") is None or not fn.get("in_trait") or not (fn["in_trait"].split("::")[-1] in ("IteratingInstrumenter", "Instrumenter")):
            continue
        nm = fn["name"]
        if nm in SETTERS or nm in SEL or (nm.endswith("_at") and nm[:-3] in SEL):
            continue
        sets = [c for c in walk(fn["body"]) if c.get("k") == "MethodCall" and (c["method"] in SETTERS or c["method"] in SEL or (c["method"].endswith("_at") and c["method"][:-3] in SEL))]
        r.ob(not sets, {"non-selector": nm, "selects a mode": [c["method"] for c in sets]})
        if sets:
            r.violate("%s | selects %s" % (fn["path"], sets[0]["method"]), F.loc(fn, sets[0]),
                      "%s is not a mode selector but calls `%s`: after it, code the caller injects lands in another list than the one the caller had selected" % (nm, sets[0]["method"]))
    return r


def finish_resets_priority_mode(F):
    """R-FINISH-INSTR: FunctionModifier::inject consults the function-level mode first (`self.instr_flag.current_mode`):
    while it is set every injection is filed as function entry/exit code.  `finish_instr` is the only way to leave that
    mode, so it must reset exactly the flag inject gives priority to; resetting something else leaves later
    instruction-level injections (block exit, before/after at a location …) filed as function-entry code."""
    r = RuleResult("R-FINISH-INSTR",
                   "<FunctionModifier as Instrumenter>::finish_instr resets the mode flag that <FunctionModifier as Inject>::inject tests first")
    inj = [f for f in F.fns if f["name"] == "inject" and f.get("body") is not None and "FunctionModifier" in f["path"] and (f.get("impl_trait") or "").endswith("Inject")]
    fin = [f for f in F.fns if f["name"] == "finish_instr" and f.get("body") is not None and "FunctionModifier" in f["path"]]
    if len(inj) != 1 or len(fin) != 1:
        raise CheckError("FunctionModifier inject/finish_instr not found (%d/%d)" % (len(inj), len(fin)))
    inj, fin = inj[0], fin[0]
    r.analysed += [inj["path"], fin["path"]]
    prio = None
    for n in walk(inj["body"]):
        if n.get("k") == "If":
            for x in walk(n["cond"]):
                pp = place_path(x) if x.get("k") in ("Field", "MethodCall") else None
                if pp and "current_mode" in pp:
                    prio = pp.split(".current_mode")[0]
            break
    if prio is None:
        raise CheckError("FunctionModifier::inject: no priority test on a current_mode found")
    resets = set()
    for x in walk(fin["body"]):
        if x.get("k") == "MethodCall" and x["method"] == "finish_instr":
            resets.add(place_path(x["recv"]) or "?")
        if x.get("k") == "Assign" and (place_path(x["lhs"]) or "").endswith(".current_mode"):
            resets.add((place_path(x["lhs"]) or "").rsplit(".current_mode", 1)[0])
    uncond = any(x.get("k") == "MethodCall" and x["method"] == "finish_instr" and (place_path(x["recv"]) or "") == prio and not (conditional_ancestors(fin["body"], x) or []) for x in walk(fin["body"])) or \
        any(x.get("k") == "Assign" and (place_path(x["lhs"]) or "") == prio + ".current_mode" and not (conditional_ancestors(fin["body"], x) or []) for x in walk(fin["body"]))
    ok = uncond
    r.ob(ok, {"inject tests first": prio + ".current_mode", "finish_instr resets": sorted(resets)})
    if not ok:
        r.violate("%s | wrong flag" % fin["path"], F.loc(fin), "inject gives priority to `%s.current_mode`, but finish_instr resets %s: after func_entry()/func_exit() … finish_instr(), later instruction-level injections are still filed as function-level code" % (prio, sorted(resets) or "nothing"))
    return r


def mode_case_callbacks(F, mode_adt, M):
    """(select_arms, inline_calls) for vlib.paths.paths that prune a function's paths to those taken when the current
    instrumentation mode is M — whether the mode is matched as `match self.current_mode { Some(M) => .. }`, bound first
    (`let Some(mode) = self.current_mode else {..}; match mode {..}`), or handed to local helpers taking a mode parameter."""
    subj = set()
    for f_ in F.fns:
        for pm in f_.get("params", []) or []:
            if (pm.get("ty") or "").replace("&", "").strip() == mode_adt and pm["pat"].get("k") == "Binding":
                subj.add(pm["pat"]["hid"])
        if f_.get("body") is None:
            continue
        for n in walk(f_["body"]):
            src = pat = None
            if n.get("k") == "Let" and "init" in n:
                src, pat = n["init"], n["pat"]
            elif n.get("k") == "LetExpr":
                src, pat = n["init"], n["pat"]
            if src is not None and "current_mode" in (place_path(src) or ""):
                for b in walk(pat):
                    if b.get("k") == "Binding":
                        subj.add(b["hid"])

    def is_subj(e):
        e = peel(e)
        if isinstance(e, dict) and e.get("k") == "Path" and e.get("res", {}).get("hid") in subj:
            return True
        return isinstance(e, dict) and "current_mode" in (place_path(e) or "")

    def select_arms(m):
        if not is_subj(m.get("scrut") or {}):
            return None
        for a2 in m["arms"]:
            for b in walk(a2["pat"]):
                if b.get("k") == "Binding":
                    subj.add(b["hid"])  # `Some(mode) => match mode {..}`
        out = []
        for i, arm in enumerate(m["arms"]):
            ms = _mode_variants_in(arm["pat"], mode_adt)
            none = any(x.get("variant") == "None" for x in walk(arm["pat"])) and not ms
            if M in ms:
                return [i]
            if not ms and not none:
                out.append(i)   # wildcard / binding arm
                break
        return out

    def inline_calls(c):
        callee = c.get("inst") or c.get("callee")
        t = F.by_path.get(callee or "")
        if not t or len(t) != 1 or t[0].get("body") is None:
            return None
        args = ([c["recv"]] if c.get("k") == "MethodCall" else []) + list(c.get("args", []))
        if any(is_subj(a_) for a_ in args):
            return t[0]["body"]
        return None

    return select_arms, inline_calls
