#!/bin/sh
# Build the fact extractor (rustc_private driver, zero crates.io deps) and warm the dependency cache.
set -e
cd "$(dirname "$0")"
export CARGO_NET_OFFLINE=true
( cd driver && cargo +nightly build --release --offline )
python3 - <<'PY'
import sys
sys.path.insert(0, '/verif')
from vlib import facts
p, d = facts.extract(force=True)
print("facts:", p)
PY
